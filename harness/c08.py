"""C08 — publish/subscribe: a fired event reaches exactly its subscribers, once, in order.

Tie: operation sequences over several producers (with listeners that re-enter
the producers from inside notify: subscribe, the unsubscribe forms, nested fire
- also on another producer -, raise), payload x metadata combinations and
EventType construction sequences are run on the real EventProducer / Event /
TimedEvent / EventType of /repo and on the Gallina models PubSub.Model /
PubSub.TypeModel inside coqc; the flat observation stream (deliveries with the
ordinal of the delivering fire invocation, listener, event type, payload
identity and timestamp; has_listeners answers; return / exception class of
every outermost call) must agree.  A monitor that is independent of the Coq model (a reference
subscription map updated alongside the real calls, and a reference acceptance
rule for payloads) evaluates the property's clauses on the implementation's
behaviour, classifies disagreements and drives the search for / shrinking of a
failing input.
"""
from __future__ import annotations

import collections
import itertools
import json
import math
import random
import sys
from pathlib import Path

sys.path.insert(0, str(Path(__file__).resolve().parent))
import common as C
import c08_et as ET
import c08_ll as LL
import c08lib as L

PID = "C08"
# built in coq/ (independent of the source text); Gen_PubSub / GenAgree / Props/C08 are compiled per tree (c08lib.PubSubTree)
TARGETS = ["PubSub/Model.vo", "PubSub/SubsProofs.vo", "PubSub/EventProofs.vo", "PubSub/Proofs.vo", "PubSub/OpsProofs.vo",
           "PubSub/TypeModel.vo", "PubSub/TypeProofs.vo"]
N_ET = 3
N_LIS = 4
N_PROD = 2

TYPES = ["TObject", "TInt", "TBool", "TFloat", "TStr", "TNone", "TList", "TDict", "TBase", "TDerived"]
VALUE_TYPES = ["TInt", "TBool", "TFloat", "TStr", "TNone", "TList", "TDict", "TBase", "TDerived", "TObject"]
NAN_TAG, INF_TAG = 9001, 9002


class Base:
    pass


class Derived(Base):
    pass


class UserBoom(RuntimeError):
    pass


PYCLASS = {"TObject": object, "TInt": int, "TBool": bool, "TFloat": float, "TStr": str,
           "TNone": type(None), "TList": list, "TDict": dict, "TBase": Base, "TDerived": Derived}
# issubclass table of the reference acceptance rule (written out, not computed from the model)
SUPER = {"TObject": {"TObject"}, "TInt": {"TInt", "TObject"}, "TBool": {"TBool", "TInt", "TObject"},
         "TFloat": {"TFloat", "TObject"}, "TStr": {"TStr", "TObject"}, "TNone": {"TNone", "TObject"},
         "TList": {"TList", "TObject"}, "TDict": {"TDict", "TObject"}, "TBase": {"TBase", "TObject"},
         "TDerived": {"TDerived", "TBase", "TObject"}}
KEYS = ["a", "b", "c", "d", 4, ("t",)]       # key ids 0..5; only 0..3 can occur in metadata


def make_value(ty: str):
    return {"TObject": object, "TInt": lambda: 7, "TBool": lambda: True, "TFloat": lambda: 2.5,
            "TStr": lambda: "v", "TNone": lambda: None, "TList": lambda: [1], "TDict": lambda: {"x": 1},
            "TBase": Base, "TDerived": Derived}[ty]()


# ------------------------------------------------------------------ implementation side
_et_counter = [0]
DEFAULT_NAMES = [0, 0, 1]          # cases without a "names" field (corpus, exhaustive): types 0 and 1 share their name
NAME_PATTERNS = [[0, 0, 1], [0, 1, 1], [0, 1, 0], [0, 0, 0], [0, 1, 2]]
DEFAULT_LKINDS = ["len", "false", "plain", "len"]      # cases without a "lkinds" field (corpus, exhaustive)
DICT_SUBS = ["od", "dd", "counter", "missing:TInt", "missing:TStr", "missing:TBase"]


class MissingDict(dict):
    """a dict subclass that answers for absent keys"""
    def __init__(self, items, default):
        super().__init__(items)
        self._default = default

    def __missing__(self, key):
        return self._default


def make_dict(items, sub):
    """the payload dict of the given flavour; its keys are exactly those of items"""
    if sub in (None, "dict"):
        return dict(items)
    if sub == "od":
        return collections.OrderedDict(items)
    if sub == "dd":
        return collections.defaultdict(int, items)
    if sub == "counter":
        c = collections.Counter()
        for k, v in items:
            c[k] = v
        return c
    if sub.startswith("missing:"):
        return MissingDict(items, make_value(sub.split(":")[1]))
    raise ValueError(sub)
_site_cache = {}


def _sites_of(pubsub):
    if id(pubsub) not in _site_cache:
        _site_cache[id(pubsub)] = ET.make_sites(pubsub)
    return _site_cache[id(pubsub)]


class Ctx:
    """One case on the real classes, with the monitor alongside."""

    def __init__(self, case, pubsub):
        self.ps = pubsub
        self.case = case
        # Event types of one case: type i is defined at site i (c08_et.make_sites: two functions, a class body,
        # a lambda); case["names"][i] is its name group - types of one group carry the SAME name (legal: the
        # defining class differs) and must still be different event types to every producer.
        self.ets = []
        _et_counter[0] += 1
        groups = case.get("names") or DEFAULT_NAMES[:len(case["env"])]
        sites = _sites_of(pubsub)
        for i, md in enumerate(case["env"]):
            decl = None if md is None else {KEYS[k]: PYCLASS[t] for k, t in md}
            self.ets.append(sites[i % len(sites)](f"C08_T{_et_counter[0]}_g{groups[i]}", decl))
        self.producers = [pubsub.EventProducer() for _ in range(N_PROD)]
        ctx = self

        class Lis(pubsub.EventListener):
            def __init__(self, idx, scripts):
                self.idx = idx
                self.scripts = [list(s) for s in scripts]

            def notify(self, event):
                ctx.on_notify(self, event)

        class LisLen(Lis):
            """a buffering listener: its length is the number of programs it still holds (0 once drained)"""
            def __len__(self):
                return len(self.scripts)

        class LisFalse(Lis):
            def __bool__(self):
                return False

        # case["lkinds"][l]: "plain" | "len" | "false" - a listener is a listener whatever its truth value
        kinds = case.get("lkinds") or DEFAULT_LKINDS[:len(case["scripts"])]
        self.listeners = [{"plain": Lis, "len": LisLen, "false": LisFalse}[kinds[i]](i, s) for i, s in enumerate(case["scripts"])]
        self.trace = []
        self.keep = []          # payload objects kept alive; identity -> tag
        self.ident = {}
        # monitor state
        self.ref = {}           # reference subscription map: (producer, et) -> [listener]
        self.cross_ops = 0      # operations performed inside notify on a producer other than the notifying one
        self.stack = []         # active fire invocations
        self.invocations = []
        self.findings = []      # (signature, description)
        self.max_depth = 0
        self.next_inv = 0       # ordinal of the next fire invocation that gets as far as notifying
        self.op_counts = collections.Counter()
        self.nested_ops = 0

    # ---- object construction
    def et_arg(self, a):
        return None if a is None else ("not-an-event-type" if a == "bad" else self.ets[a])

    def lis_arg(self, a):
        return None if a is None else (object() if a == "bad" else self.listeners[a])

    def payload(self, c):
        tag = c["tag"]
        if "dict" in c:
            items = [(KEYS[k], make_value(t)) for k, t in c["dict"]]
            obj = make_dict(items, "od" if c.get("od") else c.get("sub"))
        else:
            t = c["nondict"]
            obj = {"TObject": object, "TInt": lambda: 1000 + tag, "TBool": lambda: bool(tag),
                   "TFloat": lambda: tag + 0.5, "TStr": lambda: f"s{tag}", "TNone": lambda: None,
                   "TList": lambda: [tag], "TBase": Base, "TDerived": Derived}[t]()
        if not isinstance(obj, (int, float, str, type(None))):
            self.keep.append(obj)
            self.ident[id(obj)] = tag
        return obj

    def tag_of(self, obj):
        if obj is None:
            return 0
        if isinstance(obj, bool):
            return int(obj)
        if isinstance(obj, int):
            return obj - 1000 if obj >= 1000 else -1
        if isinstance(obj, float):
            return int(obj - 0.5) if obj - 0.5 == int(obj - 0.5) and obj >= 0.5 else -1
        if isinstance(obj, str):
            return int(obj[1:]) if obj[:1] == "s" and obj[1:].isdigit() else -1
        return self.ident.get(id(obj), -1)

    @staticmethod
    def timestamp(ts):
        ty, tag = ts
        if ty == "TInt":
            return tag
        if ty == "TFloat":
            return float("nan") if tag == NAN_TAG else (float("inf") if tag == INF_TAG else tag / 4.0)
        if ty == "TBool":
            return bool(tag)
        if ty == "TStr":
            return str(tag)
        if ty == "TNone":
            return None
        return make_value(ty)

    @staticmethod
    def ts_canon(v):
        if isinstance(v, bool):
            return ["TBool", int(v)]
        if isinstance(v, int):
            return ["TInt", v]
        if isinstance(v, float):
            if v != v:
                return ["TFloat", NAN_TAG]
            if math.isinf(v):
                return ["TFloat", INF_TAG] if v > 0 else ["bad", repr(v)]
            return ["TFloat", int(v * 4)] if v * 4 == int(v * 4) else ["bad", repr(v)]
        return ["bad", repr(v)]

    def et_id(self, et):
        for i, x in enumerate(self.ets):
            if x is et:
                return i
        return -1

    # ---- reference rules of the monitor (independent of the Coq model)
    def ref_accepts(self, et, c, chk):
        """the property's rule: with metadata the payload must be a dict with exactly the
        declared keys and (non-None) values of the declared types, unless check is off
        (being a dict is required even then)."""
        md = self.case["env"][et]
        if md is None:
            return True
        if "dict" not in c:
            return False
        if not chk:
            return True
        have = {k: t for k, t in c["dict"]}
        if set(have) != {k for k, _ in md}:
            return False
        return all(have[k] != "TNone" and t in SUPER[have[k]] for k, t in md)

    @staticmethod
    def ref_ts_ok(ts):
        return ts[0] in ("TInt", "TBool", "TFloat")

    def expect_event(self, spec):
        """-> (accepted?, et, content, ts or None) by the reference rules."""
        if spec[0] == "plain":
            _, et, c, chk = spec
            ts = None
        else:
            _, ts, et, c, chk = spec
            if not self.ref_ts_ok(ts):
                return False, None, None, None
        if not isinstance(et, int):
            return False, None, None, None
        return self.ref_accepts(et, c, chk), et, c, ts

    def build_event(self, spec):
        if spec[0] == "plain":
            return self.ps.Event(self.et_arg(spec[1]), self.payload(spec[2]), spec[3])
        if spec[0] == "timed":
            return self.ps.TimedEvent(self.timestamp(spec[1]), self.et_arg(spec[2]), self.payload(spec[3]), spec[4])
        return "not-an-event"

    # ---- performing one operation (at any nesting level) with the monitor
    # op formats: [add|remove|remove_all, p, et, l]  [has, p]  [raise]  [fire, p, et, c, chk]
    #             [fire_timed, p, ts, et, c, chk]  [fire_event|fire_timed_event, p, spec]
    def perform(self, op):
        kind = op[0]
        depth = len(self.stack)
        self.op_counts[kind] += 1
        if depth > 0:
            self.nested_ops += 1
            if kind.startswith("fire"):
                self.stack[-1]["nested_fire"] = True
            if kind != "raise" and op[1] != self.stack[-1]["p"]:
                self.cross_ops += 1
        if kind == "raise":
            raise UserBoom("listener program raises")
        pi = op[1]
        p = self.producers[pi]
        if kind == "has":
            r = p.has_listeners()
            self.trace.append(["h", r] if isinstance(r, bool) else ["bad", repr(r)])
            exp = any(v for (q, _), v in self.ref.items() if q == pi)
            if r is not exp:
                self.findings.append(("has-listeners-wrong", f"has_listeners() of producer {pi} returned {r!r}, reference map {self.ref} says {exp}"))
            return
        if kind in ("add", "remove", "remove_all"):
            et, l = op[2], op[3]
            bad = (et == "bad" or l == "bad" or (kind != "remove_all" and (et is None or l is None)))
            try:
                r = getattr(p, {"add": "add_listener", "remove": "remove_listener",
                                "remove_all": "remove_all_listeners"}[kind])(self.et_arg(et), self.lis_arg(l))
            except self.ps.EventError:
                if not bad:
                    self.findings.append((f"{kind}-raises", f"{op} raised EventError on well-typed arguments"))
                raise
            if bad:
                self.findings.append((f"{kind}-accepts-bad-argument", f"{op} did not raise EventError"))
                return
            if r is not None:
                self.trace.append(["bad", repr(r)])
            # mirror into the reference map
            if kind == "add":
                lst = self.ref.setdefault((pi, et), [])
                if l not in lst:
                    lst.append(l)
            elif kind == "remove" or (et is not None and l is not None):
                if l in self.ref.get((pi, et), []):
                    self.ref[(pi, et)].remove(l)
            elif et is None and l is None:
                for k in self.ref:
                    if k[0] == pi:
                        self.ref[k] = []
            elif et is None:
                for k in self.ref:
                    if k[0] == pi and l in self.ref[k]:
                        self.ref[k].remove(l)
            else:
                self.ref[(pi, et)] = []
            return
        # ---- fire family
        if kind == "fire":
            spec = ["plain", op[2], op[3], op[4]]
        elif kind == "fire_timed":
            spec = ["timed", op[2], op[3], op[4], op[5]]
        else:
            spec = op[2]
        if spec[0] == "notevent":
            acc, et, c, ts = False, None, None, None
        else:
            acc, et, c, ts = self.expect_event(spec)
            if kind == "fire_timed_event" and spec[0] != "timed":
                acc = False
        inv = {"op": op, "p": pi, "et": et, "tag": c["tag"] if c else None, "ts": ts, "accepted": acc,
               "expected": list(self.ref.get((pi, et), [])) if acc else [], "got": [], "completed": False,
               "depth": depth, "changed_during": False, "ordinal": self.next_inv}
        self.next_inv += 1
        self.invocations.append(inv)
        self.stack.append(inv)
        self.max_depth = max(self.max_depth, depth + 1)
        try:
            if kind == "fire":
                r = p.fire(self.et_arg(op[2]), self.payload(op[3]), op[4])
            elif kind == "fire_timed":
                r = p.fire_timed(self.timestamp(op[2]), self.et_arg(op[3]), self.payload(op[4]), op[5])
            elif kind == "fire_event":
                r = p.fire_event(self.build_event(spec))
            else:
                r = p.fire_timed_event(self.build_event(spec))
            inv["completed"] = True
            if r is not None:
                self.trace.append(["bad", repr(r)])
        except self.ps.EventError:
            inv["raised"] = "EventError"
            raise
        except UserBoom:
            inv["raised"] = "user"
            raise
        finally:
            self.stack.pop()
            if inv.get("raised") == "EventError" and not inv["got"]:
                # refused before anything was delivered (constructors / isinstance tests; an EventError
                # coming out of a nested call needs a delivery first): the call does not count as an
                # invocation, and it cannot have had nested invocations
                self.next_inv = inv["ordinal"]
            if acc and list(self.ref.get((pi, et), [])) != inv["expected"]:
                inv["changed_during"] = True

    def on_notify(self, lis, event):
        ts = self.ts_canon(event.timestamp) if isinstance(event, self.ps.TimedEvent) else None
        rec = ["d", lis.idx, self.et_id(event.event_type), self.tag_of(event.content), ts]
        # the flat observation also says which fire invocation (ordinal in order of starting) delivers
        self.trace.append(rec + [self.stack[-1]["ordinal"] if self.stack else -1])
        if self.stack:
            self.stack[-1]["got"].append(rec)
        else:
            self.findings.append(("delivery-outside-fire", f"listener {lis.idx} notified while no fire call was active"))
        if lis.scripts:
            for op in lis.scripts.pop(0):
                self.perform(op)

    def run(self):
        for op in self.case["ops"]:
            try:
                self.perform(op)
                self.trace.append(["ret"])
            except self.ps.EventError:
                self.trace.append(["raise", "EventError"])
            except UserBoom:
                self.trace.append(["raise", "user"])
            except Exception as exc:  # noqa
                self.trace.append(["raise", type(exc).__name__])
                self.findings.append(("unexpected-exception", f"{op} raised {type(exc).__name__}: {exc}"))
        self.judge()
        return self.trace, self.findings

    # ---- the property's clauses, evaluated on what the implementation did
    def judge(self):
        for inv in self.invocations:
            op = inv["op"]
            raised = inv.get("raised")
            if not inv["accepted"]:
                if inv["completed"] or inv["got"] or raised != "EventError":
                    what = "delivered" if inv["got"] else "accepted"
                    self.findings.append(("event-accepted-wrongly",
                                          f"{op} must be refused with EventError (reference acceptance rule) but was {what}"))
                continue
            exp = [["d", l, inv["et"], inv["tag"], inv["ts"]] for l in inv["expected"]]
            got = inv["got"]
            if not inv["completed"] and not got:
                # nothing was delivered, so the exception came from the producer / constructors themselves
                self.findings.append(("event-rejected-wrongly",
                                      f"{op} raised {raised} although event type, timestamp and payload are acceptable"))
                continue
            if inv["completed"]:
                ok = got == exp
            else:
                ok = got == exp[:len(got)] and len(got) >= 1   # an exception came out of the last notified listener
            if not ok:
                gl, el = [g[1] for g in got], inv["expected"]
                if any(g[2:] != [inv["et"], inv["tag"], inv["ts"]] for g in got):
                    bad = [g for g in got if g[2:] != [inv["et"], inv["tag"], inv["ts"]]][0]
                    sig = "timestamp-changed" if bad[2:4] == [inv["et"], inv["tag"]] else "delivered-event-differs"
                elif len(set(gl)) < len(gl):
                    sig = "delivered-twice"
                elif any(g not in el for g in gl):
                    sig = "delivered-to-non-subscriber"
                elif inv["completed"] and set(gl) != set(el):
                    sig = "subscriber-missed"
                elif sorted(gl) == sorted(el) or not inv["completed"]:
                    sig = "delivery-order"
                else:
                    sig = "delivery-not-snapshot"
                self.findings.append((sig, f"{op} at depth {inv['depth']}: subscribers of producer {inv['p']} at the moment of firing {el}, "
                                           f"deliveries {got}, completed={inv['completed']}"))


def run_impl(case):
    import pydsol.core.pubsub as ps
    ctx = Ctx(case, ps)
    trace, findings = ctx.run()
    return trace, findings, ctx


def fresh_findings(case, timeout=30):
    """run one case on the implementation in a fresh interpreter (no state left by earlier cases);
    -> list of [signature, what], or None if the run itself failed"""
    import subprocess
    try:
        pr = subprocess.run([C.PY, str(Path(__file__).resolve()), "--case-stdin"], input=json.dumps(case),
                            capture_output=True, text=True, timeout=timeout, env=C.child_env())
        return json.loads(pr.stdout) if pr.returncode == 0 else None
    except Exception:  # noqa
        return None


def run_ctor(cases):
    """Event / TimedEvent construction alone. -> list of accepted? (True/False/'other:<exc>')"""
    import pydsol.core.pubsub as ps
    out = []
    cache = {}
    for md, ts, c, chk in cases:
        key = json.dumps(md)
        if key not in cache:
            _et_counter[0] += 1
            cache[key] = ps.EventType(f"C08_M{_et_counter[0]}", None if md is None else {KEYS[k]: PYCLASS[t] for k, t in md})
        et = cache[key]
        ctx = Ctx.__new__(Ctx)
        ctx.keep, ctx.ident = [], {}
        payload = Ctx.payload(ctx, c)
        keys_before = list(payload.keys()) if isinstance(payload, dict) else None
        try:
            if ts is None:
                e = ps.Event(et, payload, chk)
                good = e.content is payload and e.event_type is et and not isinstance(e, ps.TimedEvent)
            else:
                tv = Ctx.timestamp(ts)
                e = ps.TimedEvent(tv, et, payload, chk)
                good = e.content is payload and e.event_type is et and Ctx.ts_canon(e.timestamp) == list(ts) \
                    and (e.timestamp is tv)
            out.append(True if good else "other:fields")
        except ps.EventError:
            out.append(False)
        except Exception as exc:  # noqa
            out.append("other:" + type(exc).__name__)
        if keys_before is not None and list(payload.keys()) != keys_before and out[-1] in (True, False):
            out[-1] = "other:payload-mutated"       # constructing an event must not change the payload it is given
    return out


def ref_ctor(md, ts, c, chk):
    """reference acceptance rule for construction alone."""
    if ts is not None and ts[0] not in ("TInt", "TBool", "TFloat"):
        return False
    if md is None:
        return True
    if "dict" not in c:
        return False
    if not chk:
        return True
    have = {k: t for k, t in c["dict"]}
    if set(have) != {k for k, _ in md}:
        return False
    return all(have[k] != "TNone" and t in SUPER[have[k]] for k, t in md)


# ------------------------------------------------------------------ generation
class Gen:
    def __init__(self, rng: random.Random, malformed: bool):
        self.rng = rng
        self.mal = malformed
        self.tag = 1

    def fresh(self):
        self.tag += 1
        return self.tag

    def metadata(self):
        r = self.rng
        x = r.random()
        if x < 0.45:
            return None
        if x < 0.5:
            return []
        keys = r.sample([0, 1, 2, 3], r.choice([1, 1, 2, 2, 3]))
        return [[k, r.choice(["TInt", "TInt", "TFloat", "TStr", "TBool", "TBase", "TObject", "TList", "TDict",
                              "TDerived", "TNone"])] for k in keys]

    def content(self, md, p_bad):
        r = self.rng
        if md is None:
            x = r.random()
            if x < 0.5:
                t = r.choice(["TInt", "TStr", "TFloat", "TList", "TObject", "TNone", "TBool", "TBase"])
                tag = 0 if t == "TNone" else (r.randint(0, 1) if t == "TBool" else self.fresh())
                return {"tag": tag, "nondict": t}
            return {"tag": self.fresh(), "dict": [[k, r.choice(VALUE_TYPES)] for k in r.sample(range(6), r.randint(0, 3))]}
        good_val = {"TInt": ["TInt", "TInt", "TBool"], "TBase": ["TBase", "TDerived"], "TObject": ["TStr", "TObject", "TInt", "TList"],
                    "TNone": ["TNone"]}
        items = [[k, r.choice(good_val.get(t, [t]))] for k, t in md]
        if r.random() < p_bad:
            m = r.random()
            if m < 0.18 and items:
                items.pop(r.randrange(len(items)))                       # missing key
            elif m < 0.36:
                extra = [k for k in range(6) if k not in [i[0] for i in items]]
                items.append([r.choice(extra), r.choice(VALUE_TYPES)])    # extra key
            elif m < 0.5 and items:
                i = r.randrange(len(items))                               # missing + extra: same length, other key
                extra = [k for k in range(6) if k not in [j[0] for j in items]]
                items[i] = [r.choice(extra), items[i][1]]
            elif m < 0.7 and items:
                i = r.randrange(len(items))
                items[i] = [items[i][0], r.choice(VALUE_TYPES)]           # (possibly) wrong type
            elif m < 0.8 and items:
                items[r.randrange(len(items))][1] = "TNone"               # None value
            else:
                t = r.choice(["TInt", "TStr", "TList", "TNone", "TObject"])
                return {"tag": 0 if t == "TNone" else self.fresh(), "nondict": t}
        r.shuffle(items)
        c = {"tag": self.fresh(), "dict": items}
        x = r.random()
        if x < 0.08:
            c["od"] = True
        elif x < 0.3:
            c["sub"] = r.choice(DICT_SUBS[1:])
        return c

    def ts(self):
        r = self.rng
        x = r.random()
        bad = 0.25 if self.mal else 0.05
        if x < bad:
            return r.choice([["TStr", 3], ["TNone", 0], ["TList", 0], ["TObject", 0]])
        if x < bad + 0.1:
            return ["TBool", r.randint(0, 1)]
        if x < bad + 0.5:
            return ["TInt", r.randint(-3, 40)]
        if x < bad + 0.55:
            return ["TFloat", r.choice([NAN_TAG, INF_TAG])]
        return ["TFloat", r.randint(-8, 160)]

    def et(self):
        r = self.rng
        if r.random() < (0.12 if self.mal else 0.01):
            return r.choice([None, "bad"])
        return r.randrange(N_ET)

    def prod(self):
        return 0 if self.rng.random() < 0.65 else self.rng.randrange(1, N_PROD)

    def lis(self):
        r = self.rng
        if r.random() < (0.12 if self.mal else 0.01):
            return r.choice([None, "bad"])
        return r.randrange(N_LIS)

    def fire_op(self, env):
        r = self.rng
        p = self.prod()
        et = self.et()
        md = env[et] if isinstance(et, int) else None
        c = self.content(md, 0.35 if self.mal else 0.12)
        chk = r.random() > (0.3 if self.mal else 0.12)
        x = r.random()
        if x < 0.4:
            return ["fire", p, et, c, chk]
        if x < 0.65:
            return ["fire_timed", p, self.ts(), et, c, chk]
        if x < 0.85:
            spec = ["plain", et, c, chk] if r.random() < 0.55 else ["timed", self.ts(), et, c, chk]
            if r.random() < (0.1 if self.mal else 0.02):
                spec = ["notevent"]
            return ["fire_event", p, spec]
        spec = ["timed", self.ts(), et, c, chk]
        y = r.random()
        if y < (0.25 if self.mal else 0.06):
            spec = ["plain", et, c, chk]
        elif y < (0.3 if self.mal else 0.08):
            spec = ["notevent"]
        return ["fire_timed_event", p, spec]

    def op(self, env, nested: bool):
        r = self.rng
        x = r.random()
        if x < 0.30:
            return ["add", self.prod(), self.et(), self.lis()]
        if x < 0.42:
            return ["remove", self.prod(), self.et(), self.lis()]
        if x < 0.52:
            form = r.random()
            p = self.prod()
            if form < 0.2:
                return ["remove_all", p, None, None]
            if form < 0.5:
                return ["remove_all", p, None, r.randrange(N_LIS)]
            if form < 0.75:
                return ["remove_all", p, r.randrange(N_ET), None]
            if form < 0.88 or not self.mal:
                return ["remove_all", p, r.randrange(N_ET), r.randrange(N_LIS)]
            return ["remove_all", p] + r.choice([["bad", None], ["bad", 0], [None, "bad"], [r.randrange(N_ET), "bad"]])
        if x < 0.60:
            return ["has", self.prod()]
        if nested and x < 0.63:
            return ["raise"]
        return self.fire_op(env)

    def case(self):
        r = self.rng
        env = [self.metadata() for _ in range(N_ET)]
        scripts = []
        for _ in range(N_LIS):
            n = r.choice([0, 1, 1, 2, 3, 4])
            scripts.append([[self.op(env, True) for _ in range(r.choice([0, 1, 1, 2, 3]))] for _ in range(n)])
        ops = []
        # start from a populated map most of the time
        for _ in range(r.choice([0, 2, 4, 6])):
            ops.append(["add", self.prod(), r.randrange(N_ET), r.randrange(N_LIS)])
        ops += [self.op(env, False) for _ in range(r.randint(4, 18))]
        # observe the final subscription state of every producer through ordinary operations
        for p in range(N_PROD):
            ops.append(["has", p])
            for et in range(N_ET):
                ops.append(["fire", p, et, self.content(env[et], 0.0), True])
        return {"env": env, "scripts": scripts, "ops": ops, "names": list(r.choice(NAME_PATTERNS)),
                "lkinds": [r.choice(["plain", "plain", "len", "len", "false"]) for _ in range(N_LIS)]}


def exhaustive_cases(max_len: int):
    """All op sequences up to max_len over a fixed 14-op alphabet on 2 producers x 2 event types x 3 listeners
    with fixed re-entrant (and cross-producer) listener programs, followed by probing fires."""
    pay = lambda tag: {"tag": tag, "nondict": "TInt"}
    scripts = [
        [[["remove", 0, 0, 1]], [["add", 0, 0, 2]]],                             # L0: unsubscribes L1, later subscribes L2
        [[["fire", 1, 1, pay(50), True]], [["remove_all", 0, None, 1]]],           # L1: nested fire on the other producer, later removes itself
        [[["add", 0, 1, 0], ["remove", 0, 0, 2]]],                                 # L2
        [],
    ]
    alphabet = ([["add", 0, 0, 0], ["add", 0, 0, 1], ["add", 0, 1, 1], ["add", 0, 0, 2], ["add", 1, 1, 0]]
                + [["remove", 0, 0, 0], ["remove", 0, 0, 1], ["remove", 0, 1, 1]]
                + [["remove_all", 0, None, None], ["remove_all", 0, None, 0], ["remove_all", 0, 0, None], ["remove_all", 0, 1, 1]]
                + [["fire", 0, 0, pay(60), True], ["fire_timed", 1, ["TInt", 5], 1, pay(61), True]])
    tail = [["has", 0], ["fire", 0, 0, pay(70), True], ["fire", 0, 1, pay(71), True], ["has", 1], ["fire", 1, 1, pay(72), True]]
    for ln in range(1, max_len + 1):
        for ops in itertools.product(alphabet, repeat=ln):
            yield {"env": [None, None, None], "scripts": scripts, "ops": [list(o) for o in ops] + tail}


def ctor_space(tier: str, rng: random.Random):
    """payload shapes x metadata declarations x check x (plain | timed)."""
    mts = ["TInt", "TBool", "TFloat", "TStr", "TBase", "TObject", "TNone"] if tier == "thorough" else ["TInt", "TStr", "TBase", "TObject"]
    vts = VALUE_TYPES if tier == "thorough" else ["TInt", "TBool", "TStr", "TNone", "TDerived", "TBase"]
    mds = [None, []] + [[[0, t]] for t in mts] + [[[0, t], [1, u]] for t in mts for u in mts] + [[[1, u], [0, t]] for t in mts[:2] for u in mts[:2]]
    contents = [{"tag": 5, "nondict": t} for t in ("TInt", "TStr", "TList", "TNone", "TObject")]
    for keys in ([], [0], [1], [2], [0, 1], [1, 0], [0, 2], [0, 1, 2], [4, 0], [5]):
        for vals in itertools.product(vts, repeat=len(keys)):
            contents.append({"tag": 5, "dict": [[k, v] for k, v in zip(keys, vals)]})
    tss = [None, ["TInt", 3], ["TFloat", 10], ["TBool", 1], ["TStr", 3], ["TNone", 0], ["TFloat", NAN_TAG]]
    full = []
    for md in mds:
        for c in contents:
            for chk in (True, False):
                full.append((md, None, c, chk))
    # timestamps: every timestamp kind against a sample of the above
    sample = rng.sample(full, min(len(full), 300 if tier == "quick" else 4000))
    timed = [(md, ts, c, chk) for (md, _, c, chk) in sample for ts in tss[1:]]
    limit = 2400 if tier == "quick" else 10 ** 9
    if len(full) > limit:
        # keep every (metadata, check) x shape class at least once, sample the rest
        full = rng.sample(full, limit)
    # dict SUBCLASSES as payloads (OrderedDict, defaultdict, Counter, a dict with __missing__): they are dicts with exactly
    # their own keys - a declared key that is absent is absent, whatever the subclass would answer for it
    subs = []
    smds = [[[0, "TInt"]], [[0, "TInt"], [1, "TInt"]], [[0, "TObject"]], [[0, "TInt"], [1, "TStr"]], [[0, "TBase"], [1, "TInt"]]]
    skeys = ([0], [2], [0, 1], [0, 2], [2, 1], [2, 3], [1, 0])
    for md in smds:
        for keys in skeys:
            for vals in ([["TInt"] * len(keys), ["TStr"] * len(keys)] + ([["TInt", "TStr"], ["TBase", "TInt"]] if len(keys) == 2 else [])):
                for sub in DICT_SUBS:
                    for chk in (True, False):
                        subs.append((md, None, {"tag": 5, "dict": [[k, v] for k, v in zip(keys, vals)], "sub": sub}, chk))
    return full + timed + subs


# ------------------------------------------------------------------ shrinking
def _cp(x):
    return json.loads(json.dumps(x))


def shrink(case, failing):
    """greedy delta debugging: drop outermost ops, ops inside listener programs, whole programs,
    all programs of a listener, metadata declarations; until nothing more can go."""
    cur = _cp(case)

    def candidates(c):
        for i in range(len(c["ops"])):
            if len(c["ops"]) > 1:
                d = _cp(c); del d["ops"][i]; yield d
        for li, q in enumerate(c["scripts"]):
            if q:
                d = _cp(c); d["scripts"][li] = []; yield d
            for si, sc in enumerate(q):
                d = _cp(c); del d["scripts"][li][si]; yield d
                for oi in range(len(sc)):
                    d = _cp(c); del d["scripts"][li][si][oi]; yield d
        for ei, md in enumerate(c["env"]):
            if md is not None:
                d = _cp(c); d["env"][ei] = None; yield d
    changed = True
    while changed:
        changed = False
        for cand in candidates(cur):
            if failing(cand):
                cur, changed = cand, True
                break
    return cur


def shrink_tcase(case, failing):
    cur = _cp(case)
    changed = True
    while changed:
        changed = False
        cands = []
        for i in range(len(cur["events"])):
            d = _cp(cur); del d["events"][i]; cands.append(d)
        for i in range(len(cur["ctors"])):
            if len(cur["ctors"]) > 1:
                d = _cp(cur); del d["ctors"][i]; cands.append(d)
        for cand in cands:
            if failing(cand):
                cur, changed = cand, True
                break
    return cur


# ------------------------------------------------------------------ Coq emission
def carg(a):
    return "NoneArg" if a is None else ("BadArg" if a == "bad" else f"(Good {a})")


def ccontent(c):
    if "dict" in c:
        items = C.clist(f"({k}, PyV {t})" for k, t in c["dict"])
        return f"(mkContent {c['tag']} (SDict {items}))"
    return f"(mkContent {c['tag']} (SNonDict {c['nondict']}))"


def cts(ts):
    return f"(mkTs {ts[0]} {C.cz(ts[1])})"


def cspec(s):
    if s[0] == "plain":
        return f"(EvPlain {carg(s[1])} {ccontent(s[2])} {C.cbool(s[3])})"
    if s[0] == "timed":
        return f"(EvTimed {cts(s[1])} {carg(s[2])} {ccontent(s[3])} {C.cbool(s[4])})"
    return "EvNotAnEvent"


def cop(op):
    k = op[0]
    if k == "raise":
        return "ORaise"
    p = op[1]
    if k == "add":
        return f"OAdd {p} {carg(op[2])} {carg(op[3])}"
    if k == "remove":
        return f"ORemove {p} {carg(op[2])} {carg(op[3])}"
    if k == "remove_all":
        return f"ORemoveAll {p} {carg(op[2])} {carg(op[3])}"
    if k == "has":
        return f"OHas {p}"
    if k == "fire":
        return f"OFire {p} {carg(op[2])} {ccontent(op[3])} {C.cbool(op[4])}"
    if k == "fire_timed":
        return f"OFireTimed {p} {cts(op[2])} {carg(op[3])} {ccontent(op[4])} {C.cbool(op[5])}"
    if k == "fire_event":
        return f"OFireEvent {p} {cspec(op[2])}"
    if k == "fire_timed_event":
        return f"OFireTimedEvent {p} {cspec(op[2])}"
    raise ValueError(op)


def cmd(md):
    return "None" if md is None else "(Some " + C.clist(f"({k}, {t})" for k, t in md) + ")"


def ciobs(o):
    if o[0] == "d":
        _, l, et, tag, ts, inv = o
        if l < 0 or et < 0 or tag < 0 or inv < 0 or (ts is not None and ts[0] == "bad"):
            return "IOther"
        return f"IDeliver {inv} {l} {et} {tag} " + ("None" if ts is None else f"(Some {cts(ts)})")
    if o[0] == "h":
        return f"IHas {C.cbool(o[1])}"
    if o[0] == "ret":
        return "IRet"
    if o[0] == "raise":
        return {"EventError": "IRaiseEventError", "user": "IRaiseUser"}.get(o[1], "IOther")
    return "IOther"


HEADER = ["From Coq Require Import ZArith List.", "From PV Require Import PubSub.Model.", "Import ListNotations."]


def emit_cases(path: Path, cases):
    items = []
    for case, trace in cases:
        scr = C.clist(C.clist(C.clist(cop(o) for o in s) for s in q) for q in case["scripts"])
        items.append(f"mkCase {C.clist(cmd(m) for m in case['env'])} {scr} "
                     f"{C.clist(cop(o) for o in case['ops'])} {C.clist(ciobs(o) for o in trace)}")
    path.write_text("\n".join(HEADER + ["Definition cases : list case := [", ";\n".join(items), "].",
                                        "Eval vm_compute in (mismatches_from 0 cases)."]) + "\n")


def emit_ctor(path: Path, cases):
    items = []
    for (md, ts, c, chk), acc in cases:
        items.append(f"({cmd(md)}, {'None' if ts is None else '(Some ' + cts(ts) + ')'}, {ccontent(c)}, {C.cbool(chk)}, {C.cbool(acc is True)})")
    path.write_text("\n".join(HEADER + ["Definition cases : list (option metadata * option tstamp * content * bool * bool) := [",
                                        ";\n".join(items), "].",
                                        "Eval vm_compute in (ctor_mismatches_from 0 cases)."]) + "\n")


# ------------------------------------------------------------------ main
def is_nontrivial(ctx) -> bool:
    """a fire invocation with >= 2 subscribers at the moment of firing, delivered completely, during which
    listener programs changed the subscriber list of that very event type or fired again (nested)."""
    return any(i["accepted"] and i["completed"] and len(i["expected"]) >= 2
               and (i["changed_during"] or i.get("nested_fire")) for i in ctx.invocations)


def main(tier: str) -> int:
    import time as _t
    run = C.Run(PID, tier)
    phase = {}
    t_ph = [_t.time()]

    def mark(name):
        now = _t.time(); phase[name] = round(now - t_ph[0], 2); t_ph[0] = now
    try:
        tree = L.PubSubTree().prepare()
    except Exception as exc:  # noqa
        run.violation("translated-model-not-buildable", f"the model could not be regenerated from the source: {type(exc).__name__}: {exc}",
                      {"unchecked": "coq/PubSub/GenAgree.v"}, found_input=False)
        return run.finish()
    mark("translate_and_agreement_proofs")
    proofs_ok = L.check_proofs(run, tree, TARGETS, extra_tb=[
        "Python object identity / isinstance abstracted: listeners and event types are numbered objects, payload values are "
        "represented by their exact class in a 10-class lattice (object, int, bool<=int, float, str, NoneType, list, dict, Base, Derived<=Base)",
        "listener behaviour = a finite queue of scripts (the k-th notification performs the k-th script); exceptions raised in "
        "notify propagate (no try/except in listeners); any number of producers sharing event types and listeners, used from one thread",
    ])
    mark("build_and_props_recheck")
    C.use_repo_sources()
    try:
        import pydsol.core.pubsub  # noqa
    except Exception as exc:  # noqa
        run.violation("harness-cannot-run-implementation", f"import pydsol.core.pubsub failed: {type(exc).__name__}: {exc}",
                      {}, found_input=False)
        return run.finish()
    rng = random.Random(run.seed * 104729 + 8)
    n_random = 2400 if tier == "quick" else 30000
    n_mal = 600 if tier == "quick" else 8000
    exh_len = 3 if tier == "quick" else 4

    cases = []
    corpus = C.VERIF / "corpus" / "C08.json"
    if corpus.exists():
        cases += json.loads(corpus.read_text())
    n_corpus = len(cases)
    for _ in range(n_random):
        cases.append(Gen(rng, False).case())
    for _ in range(n_mal):
        cases.append(Gen(rng, True).case())
    n_exh = 0
    for c in exhaustive_cases(exh_len):
        cases.append(c); n_exh += 1

    done = []
    nontrivial = set()
    op_hist = collections.Counter()
    exc_hist = collections.Counter()
    depth_hist = collections.Counter()
    n_deliveries = 0
    n_nested = 0
    n_cross = 0
    first_bad = None
    bad_cases = []
    for case in cases:
        try:
            trace, findings, ctx = run_impl(case)
        except Exception as exc:  # noqa
            run.violation("harness-cannot-run-implementation",
                          f"running a case on the implementation failed: {type(exc).__name__}: {exc}", {"case": case}, found_input=False)
            return run.finish()
        op_hist.update(ctx.op_counts)
        n_nested += ctx.nested_ops
        n_cross += ctx.cross_ops
        for o in trace:
            if o[0] == "raise":
                exc_hist[o[1]] += 1
            elif o[0] == "d":
                n_deliveries += 1
        depth_hist[ctx.max_depth] += 1
        if is_nontrivial(ctx):
            nontrivial.add(json.dumps(case, sort_keys=True))
        if findings and first_bad is None:
            first_bad = (case, findings)
        if findings and len(bad_cases) < 60:
            bad_cases.append(case)
        done.append((case, trace))

    mark("op_sequences_on_impl")
    # ---- constructor space
    ctor_in = ctor_space(tier, rng)
    try:
        ctor_out = run_ctor(ctor_in)
    except Exception as exc:  # noqa
        run.violation("harness-cannot-run-implementation", f"constructing events failed: {type(exc).__name__}: {exc}", {}, found_input=False)
        return run.finish()
    ctor_bad = None
    n_ctor_acc = 0
    for inp, acc in zip(ctor_in, ctor_out):
        exp = ref_ctor(*inp)
        n_ctor_acc += acc is True
        if acc is not exp and ctor_bad is None:
            ctor_bad = (inp, acc, exp)

    mark("constructor_space_on_impl")
    # ---- EventType constructions (defining sites, names, metadata declarations) + events against them
    me = sys.modules[__name__]
    n_t = 900 if tier == "quick" else 15000
    tdone = []
    t_bad = None
    t_hist = collections.Counter()
    import pydsol.core.pubsub as ps_mod
    for _ in range(n_t):
        tc = ET.gen_tcase(rng, Gen, VALUE_TYPES)
        try:
            tobs, eobs = ET.run_tcase(ps_mod, tc, me)
        except Exception as exc:  # noqa
            run.violation("harness-cannot-run-implementation", f"EventType case failed: {type(exc).__name__}: {exc}", {"tcase": tc}, found_input=False)
            return run.finish()
        for o in tobs:
            t_hist[o[0]] += 1
        f = ET.judge_tcase(tc, tobs, eobs, me)
        if f and t_bad is None:
            t_bad = (tc, f)
        tdone.append((tc, tobs, eobs))

    mark("event_type_cases_on_impl")
    # ---- the library's own listener classes (EventBasedCounter / EventBasedTally) as listeners, alike in name and state
    n_l = 800 if tier == "quick" else 12000
    ldone, l_bad = 0, None
    l_hist = collections.Counter()
    for _ in range(n_l):
        lc = LL.gen_lcase(rng)
        try:
            lobs, lf = LL.run_lcase(ps_mod, lc)
        except Exception as exc:  # noqa
            run.violation("harness-cannot-run-implementation", f"library-listener case failed: {type(exc).__name__}: {exc}", {"lcase": lc}, found_input=False)
            return run.finish()
        ldone += 1
        for o in lc["ops"]:
            l_hist[o[0]] += 1
        if lf and l_bad is None:
            l_bad = (lc, lf)
    mark("library_listener_cases_on_impl")
    # ---- the regenerated model no longer equals the proved one: look harder for a concrete failing input
    tie = tree.broken()
    if tie and not (first_bad or ctor_bad or t_bad or l_bad):
        rng2 = random.Random(run.seed * 7919 + 808)
        tried = 0
        for i in range(n_random + n_mal):
            case = Gen(rng2, i >= n_random).case()
            tried += 1
            try:
                _tr, findings, _ctx = run_impl(case)
            except Exception:  # noqa
                continue
            if findings:
                first_bad = (case, findings)
                bad_cases.append(case)
                break
        if first_bad is None:
            for _ in range(n_t):
                tc = ET.gen_tcase(rng2, Gen, VALUE_TYPES)
                tried += 1
                try:
                    tobs, eobs = ET.run_tcase(ps_mod, tc, me)
                except Exception:  # noqa
                    continue
                f = ET.judge_tcase(tc, tobs, eobs, me)
                if f:
                    t_bad = (tc, f)
                    break
        run.cov["extra_cases_searched_after_broken_tie"] = tried
        mark("extra_search_after_broken_tie")
    run.cov["source_translation"]["tie"] = ({"status": "broken", **{k: v for k, v in tie.items() if k != "failures"}}
                                            if tie else {"status": "checked"})
    run.cov["evaluations"] = len(done) + len(ctor_in) + len(tdone) + ldone
    run.cov["distinct_nontrivial"] = len(nontrivial)
    run.cov["rule"] = (f"{n_random} random + {n_mal} malformed-stream op sequences over {N_PROD} producers x {N_ET} event types x {N_LIS} listeners with scripted "
                       f"re-entrant listeners + all {n_exh} sequences of length <= {exh_len} over a 14-op alphabet with fixed re-entrant listeners "
                       f"+ {len(ctor_in)} Event/TimedEvent constructions (payload shape x metadata x check x timestamp kind) "
                       f"+ {len(tdone)} EventType construction sequences (4 defining sites x names x str/non-str keys x type/non-type values, "
                       "accepted and refused interleaved) each followed by events against the created types "
                       f"+ {ldone} add / remove / remove_all / fire / initialize sequences on a producer whose listeners are the library's own "
                       "EventBasedCounter / EventBasedTally objects, several with the same name and (when subscribed / unsubscribed) the same state, "
                       "judged by a reference map that identifies a listener by object identity, deliveries read off each object's n() / count() "
                       "(monitor only, not run through the Gallina model); in the op sequences event types of one case may share their name "
                       "(defined at different sites), listeners may be falsy objects (__len__ = programs left, or __bool__ False), dict payloads "
                       "may be dict subclasses (OrderedDict, defaultdict, Counter, a dict with __missing__; also a dedicated block of the "
                       "construction space), and a construction must leave its payload's keys as they were; "
                       "non-trivial = distinct op-sequence case containing a completely delivered fire with >= 2 subscribers at the moment of "
                       "firing during which listener programs changed the subscriber list of that event type or fired again")
    run.cov["op_histogram"] = dict(op_hist)
    run.cov["exception_histogram"] = dict(exc_hist)
    run.cov["max_fire_nesting_depth_histogram"] = {str(k): v for k, v in sorted(depth_hist.items())}
    run.cov["deliveries_observed"] = n_deliveries
    run.cov["operations_performed_inside_notify"] = n_nested
    run.cov["of_which_on_another_producer"] = n_cross
    run.cov["constructions"] = {"total": len(ctor_in), "accepted": n_ctor_acc}
    run.cov["exhaustive_small_scope_sequences"] = n_exh
    run.cov["event_type_constructions"] = dict(t_hist)
    run.cov["library_listener_cases"] = {"cases": ldone, "op_histogram": dict(l_hist)}
    for case, trace in done[n_corpus:n_corpus + 2]:
        run.add_sample({"case": case, "impl_observations": trace})

    impl_fail = False
    if first_bad:
        impl_fail = True
        case, findings = first_bad
        sig = findings[0][0]

        def failing(c):
            try:
                _, f, _ = run_impl(c)
            except Exception:
                return False
            return any(s == sig for s, _ in f)
        small = shrink(case, failing)
        # the replay must stand on its own: confirm it in a fresh interpreter; if it only failed because of
        # state left behind by earlier cases, shrink again with fresh interpreters (bounded time)
        note = None
        ff = fresh_findings(small)
        if ff is not None and not any(s_ == sig for s_, _ in ff):
            t_end = _t.time() + (60 if tier == "quick" else 240)
            standalone = None
            for cand in bad_cases:
                if _t.time() > t_end - 30:
                    break
                fo = fresh_findings(cand)
                if fo:
                    standalone = (cand, fo[0][0])
                    break
            if standalone:
                case, sig = standalone

                def failing_fresh(c):
                    if _t.time() > t_end:
                        return False
                    r_ = fresh_findings(c)
                    return bool(r_) and any(s_ == sig for s_, _ in r_)
                small = shrink(case, failing_fresh)
            else:
                note = ("fails only after earlier cases ran in the same interpreter (state leaks between EventProducer "
                        "instances / cases); on a fresh interpreter this input alone passes")
        small.setdefault("names", DEFAULT_NAMES[:len(small["env"])])     # say in the replay which types share a name
        small.setdefault("lkinds", DEFAULT_LKINDS[:len(small["scripts"])])
        tr, f, _ = run_impl(small)
        what = ([w for s_, w in f if s_ == sig] or [findings[0][1]])[0]
        rep = {"case": small, "impl_observations": tr,
               "how": "harness/c08.py run_impl(case): env = metadata per event type (type i is defined at site i; names[i] = its "
                      "name group: types of one group have the same name, declared in different classes), lkinds[l] = kind of listener l "
                      "(plain | len: __len__ = number of programs left | false: __bool__ False), scripts[l] = programs listener l "
                      "performs on its successive notifications, ops = outermost calls; every op names the producer "
                      "(second field) it is called on; ./check C08 --replay <this file> re-runs it"}
        if note:
            rep["note"] = note
        run.violation(sig, what, rep)
    if ctor_bad:
        impl_fail = True
        (md, ts, c, chk), acc, exp = ctor_bad
        sig = "event-accepted-wrongly" if acc is True else ("event-rejected-wrongly" if acc is False else
                                                           ("payload-mutated" if acc == "other:payload-mutated" else "constructor-unexpected-exception"))
        run.violation(sig, f"{'TimedEvent' if ts else 'Event'}(metadata={md}, timestamp={ts}, content={c}, check={chk}): "
                           f"implementation accepted={acc}, property's rule says accepted={exp}",
                      {"metadata": md, "timestamp": ts, "content": c, "check": chk, "impl_accepted": acc, "expected_accepted": exp})

    if t_bad:
        impl_fail = True
        tc, f = t_bad
        sig = f[0][0]

        def tfailing(c):
            try:
                to, eo = ET.run_tcase(ps_mod, c, me)
            except Exception:
                return False
            return any(s_ == sig for s_, _ in ET.judge_tcase(c, to, eo, me))
        small = shrink_tcase(tc, tfailing)
        to, eo = ET.run_tcase(ps_mod, small, me)
        what = [w for s_, w in ET.judge_tcase(small, to, eo, me) if s_ == sig][0]
        run.violation(sig, what, {"tcase": small, "impl_type_observations": to, "impl_event_observations": eo,
                                  "how": "harness/c08_et.py run_tcase: ctors = [defining site, name, metadata] in order; "
                                         "events = [index among created types, timestamp, content, check]"})

    if l_bad:
        impl_fail = True
        lc, lf = l_bad
        sig = lf[0][0]

        def lfailing(c):
            try:
                return any(s_ == sig for s_, _ in LL.run_lcase(ps_mod, c)[1])
            except Exception:
                return False
        small = LL.shrink_lcase(lc, lfailing)
        lobs, lf2 = LL.run_lcase(ps_mod, small)
        what = ([w for s_, w in lf2 if s_ == sig] or [lf[0][1]])[0]
        run.violation(sig, what, {"lcase": small, "impl_observations": lobs,
                                  "how": "harness/c08_ll.py run_lcase: listeners = [class, name] of EventBasedCounter / EventBasedTally objects "
                                         "(listener i = the i-th object, identified by identity); ops on one EventProducer: [add|remove, event type, listener], "
                                         "[remove_all, event type|null, listener|null], [fire, value] (DATA_EVENT = type 0), [init, listener] = listener.initialize(), [has]; "
                                         "observation of a fire = increase of every listener's n()"})

    # ---- model vs implementation inside coqc
    d = C.scratch_dir(PID)
    shard = 400
    files, kinds = [], []
    for s in range(0, len(done), shard):
        f = d / f"cases_c08_{s // shard}.v"
        emit_cases(f, done[s:s + shard]); files.append(f); kinds.append(("seq", s))
    cshard = 600
    ctor_pairs = list(zip(ctor_in, ctor_out))
    for s in range(0, len(ctor_pairs), cshard):
        f = d / f"cases_c08_ctor_{s // cshard}.v"
        emit_ctor(f, ctor_pairs[s:s + cshard]); files.append(f); kinds.append(("ctor", s))
    tshard = 400
    for s_ in range(0, len(tdone), tshard):
        f = d / f"cases_c08_et_{s_ // tshard}.v"
        ET.emit_tcases(f, tdone[s_:s_ + tshard], me); files.append(f); kinds.append(("type", s_))
    mark("oracle_and_emit")
    results = C.coqc_many(files)
    mark("model_in_coqc")
    run.cov["phase_wall_s"] = phase
    mism_seq, mism_ctor, mism_type = [], [], []
    for (kind, base), f, (rc, out) in zip(kinds, files, results):
        lst = C.parse_nat_list(out)
        if rc != 0 or lst is None:
            run.violation("correspondence-not-evaluable",
                          "coqc could not evaluate the C08 correspondence (PubSub.Model.case_ok): " + out[-600:],
                          {"file": str(f)}, found_input=False)
            return run.finish()
        {"seq": mism_seq, "ctor": mism_ctor, "type": mism_type}[kind].extend(base + i for i in lst)
    # constructions the implementation answered with something that is neither acceptance nor EventError
    n_mism = len(mism_seq) + len(mism_ctor) + len(mism_type)
    run.cov["traces_validated_against_impl"] = len(done) + len(ctor_in) + len(tdone) - n_mism
    run.cov["model_impl_mismatches"] = n_mism
    if n_mism and not impl_fail:
        if mism_seq:
            case, trace = done[mism_seq[0]]
            rep = {"case": case, "impl_observations": trace, "relation": "PubSub.Model.case_ok"}
        elif mism_ctor:
            inp, acc = ctor_pairs[mism_ctor[0]]
            rep = {"construction": inp, "impl_accepted": acc, "relation": "PubSub.Model.ctor_ok"}
        else:
            tc, to, eo = tdone[mism_type[0]]
            rep = {"tcase": tc, "impl_type_observations": to, "impl_event_observations": eo, "relation": "PubSub.TypeModel.tcase_ok"}
        run.violation("model-impl-disagree",
                      "correspondence PubSub.Model.case_ok / ctor_ok / PubSub.TypeModel.tcase_ok no longer matches the implementation, but the monitor "
                      "(reference subscription map + reference acceptance rule) found no violated clause",
                      rep, found_input=False)
    if tie and not impl_fail:
        L.report_broken_tie(run, tree, {"model_impl_mismatching_cases": n_mism})
    if not proofs_ok and not run.violations:
        run.violation("proof-broken", "a C08 proof obligation no longer checks: " + getattr(run, "proof_log", "")[-800:],
                      {"theorems": run.cov.get("theorems")}, found_input=False)
    return run.finish()


def replay(path: str) -> int:
    """./check C08 --replay <file>: run the recorded input on the implementation with the monitor."""
    C.use_repo_sources()
    import pydsol.core.pubsub as ps
    d = json.loads(Path(path).read_text())
    me = sys.modules[__name__]
    if "case" in d:
        trace, findings, _ = run_impl(d["case"])
        print("observations:", json.dumps(trace))
    elif "lcase" in d:
        obs_, findings = LL.run_lcase(ps, d["lcase"])
        print("observations:", json.dumps(obs_))
    elif "tcase" in d:
        to, eo = ET.run_tcase(ps, d["tcase"], me)
        findings = ET.judge_tcase(d["tcase"], to, eo, me)
        print("observations:", json.dumps([to, eo]))
    elif "content" in d:
        inp = (d["metadata"], d["timestamp"], d["content"], d["check"])
        acc = run_ctor([inp])[0]
        exp = ref_ctor(*inp)
        findings = [] if acc is exp else [("construction", f"accepted={acc}, expected {exp}")]
    else:
        print("nothing replayable in", path)
        return 2
    for sig, what in findings:
        print(f"FAILS [{sig}] {what}")
    if not findings:
        print("holds on this input")
    return 1 if findings else 0


if __name__ == "__main__":
    if len(sys.argv) > 1 and sys.argv[1] == "--case-stdin":
        C.use_repo_sources()
        _case = json.loads(sys.stdin.read())
        _, _f, _ = run_impl(_case)
        print(json.dumps([[a, b] for a, b in _f]))
        sys.exit(0)
    sys.exit(main(sys.argv[1] if len(sys.argv) > 1 else "quick"))
